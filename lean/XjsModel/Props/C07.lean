import XjsModel.Model.Lexer
import XjsModel.Model.Printer
import XjsModel.Spec.Utf8
/-
  C07 — Literal values survive transpilation.

  Proved here:
    * the hand-written UTF-8 encoder (bit operations, as in helpers.go) equals the arithmetic specification of
      RFC 3629 for EVERY code point up to 10FFFF;
    * a decoded escape can never inject a byte that changes the structure of the re-quoted literal: for every code
      point that the lexer decodes (`keepEscaped = false`), no byte of its encoding is `"`, `\`, LF or CR, nor an
      ASCII digit; everything else (`keepEscaped = true`: those bytes, digits, surrogate halves) stays escaped
      exactly as written — this is the content of the repair e587178;
    * the printer writes back-quoted literals with every backtick escaped, and nothing else changed;
    * numbers and identifiers: the printer emits the token literal verbatim, and the token literal is the source
      slice (by construction of `baseNextToken`).
  Decided by the correspondence (LEX/PRINT streams incl. exhaustive escapes in the thorough tier) and the model-free
  oracle that evaluates source literal and emitted literal in a JavaScript engine: that the emitted literal has the
  same string value for all literal texts (needs a formal StringValue semantics of ECMAScript; not modelled).
-/
namespace Xjs.C07
open Xjs Xjs.Spec

theorem or_low : ∀ (b : Nat), b < 64 → 128 ||| b = 128 + b := by decide
theorem or_c0 : ∀ (b : Nat), b < 32 → 192 ||| b = 192 + b := by decide
theorem or_e0 : ∀ (b : Nat), b < 16 → 224 ||| b = 224 + b := by decide
theorem or_f0 : ∀ (b : Nat), b < 8 → 240 ||| b = 240 + b := by decide

theorem b80 (x : Nat) (h : x < 64) : 128 ||| (x % 256) = 128 + x := by
  rw [Nat.mod_eq_of_lt (by omega)]; exact or_low x h
theorem bC0 (x : Nat) (h : x < 32) : 192 ||| (x % 256) = 192 + x := by
  rw [Nat.mod_eq_of_lt (by omega)]; exact or_c0 x h
theorem bE0 (x : Nat) (h : x < 16) : 224 ||| (x % 256) = 224 + x := by
  rw [Nat.mod_eq_of_lt (by omega)]; exact or_e0 x h
theorem bF0 (x : Nat) (h : x < 8) : 240 ||| (x % 256) = 240 + x := by
  rw [Nat.mod_eq_of_lt (by omega)]; exact or_f0 x h

theorem and_3f (x : Nat) : x &&& 0x3F = x % 64 := by
  have := Nat.and_two_pow_sub_one_eq_mod x 6
  simpa using this

/-- the encoder of `lexer/helpers.go` is UTF-8, for every code point -/
theorem encodeUTF8_is_utf8 (cp : Nat) (h : cp ≤ 0x10FFFF) : encodeUTF8 cp = utf8Encode cp := by
  unfold encodeUTF8 utf8Encode toByte
  simp only [and_3f, Nat.shiftRight_eq_div_pow]
  have p6 : (2 : Nat) ^ 6 = 64 := by decide
  have p12 : (2 : Nat) ^ 12 = 4096 := by decide
  have p18 : (2 : Nat) ^ 18 = 262144 := by decide
  rw [p6, p12, p18]
  by_cases h1 : cp ≤ 0x7F
  · have : cp < 0x80 := by omega
    simp only [h1, this, if_true]
    rw [Nat.mod_eq_of_lt (by omega)]
  · by_cases h2 : cp ≤ 0x7FF
    · have a : ¬ cp < 0x80 := by omega
      have b : cp < 0x800 := by omega
      simp only [h1, h2, a, b, if_true, if_false]
      rw [bC0 _ (by omega), b80 _ (by omega)]
    · by_cases h3 : cp ≤ 0xFFFF
      · have a : ¬ cp < 0x80 := by omega
        have b : ¬ cp < 0x800 := by omega
        have c : cp < 0x10000 := by omega
        simp only [h1, h2, h3, a, b, c, if_true, if_false]
        rw [bE0 _ (by omega), b80 (cp / 64 % 64) (by omega), b80 (cp % 64) (by omega)]
      · have a : ¬ cp < 0x80 := by omega
        have b : ¬ cp < 0x800 := by omega
        have c : ¬ cp < 0x10000 := by omega
        simp only [h1, h2, h3, h, a, b, c, if_true, if_false]
        rw [bF0 _ (by omega), b80 (cp / 4096 % 64) (by omega), b80 (cp / 64 % 64) (by omega), b80 (cp % 64) (by omega)]

/-- bytes that must not appear raw inside the re-quoted literal -/
def structural (b : Nat) : Bool := b == 34 || b == 92 || b == 10 || b == 13 || (48 ≤ b && b ≤ 57)

/-- a decoded escape never injects a quote, a backslash, a line terminator or a digit -/
theorem decoded_escape_is_harmless (v : Nat) (hv : v ≤ 0x10FFFF) (hk : keepEscaped v = false) :
    ∀ b ∈ encodeUTF8 v, structural b = false := by
  rw [encodeUTF8_is_utf8 v hv]
  unfold keepEscaped at hk
  simp only [Bool.or_eq_false_iff, beq_eq_false_iff_ne, Bool.and_eq_false_imp, decide_eq_true_eq, decide_eq_false_iff_not] at hk
  unfold utf8Encode
  intro b hb
  unfold structural
  split at hb
  · simp only [List.mem_singleton] at hb; subst hb
    simp only [Bool.or_eq_false_iff, beq_eq_false_iff_ne, Bool.and_eq_false_imp, decide_eq_true_eq, decide_eq_false_iff_not]
    omega
  · have : 128 ≤ b := by
      split at hb
      · simp at hb; omega
      · split at hb <;> simp at hb <;> omega
    simp only [Bool.or_eq_false_iff, beq_eq_false_iff_ne, Bool.and_eq_false_imp, decide_eq_true_eq, decide_eq_false_iff_not]
    omega

/-- surrogate halves are never decoded (their "encoding" would not be UTF-8) -/
theorem surrogates_stay_escaped (v : Nat) (h : 0xD800 ≤ v ∧ v ≤ 0xDFFF) : keepEscaped v = true := by
  unfold keepEscaped; simp; omega

/-- everything the lexer decodes is a Unicode scalar value -/
theorem decoded_is_scalar (v : Nat) (hv : v ≤ 0x10FFFF) (hk : keepEscaped v = false) : isScalar v = true := by
  unfold keepEscaped at hk
  unfold isScalar
  simp only [Bool.or_eq_false_iff, beq_eq_false_iff_ne, Bool.and_eq_false_imp, decide_eq_true_eq, decide_eq_false_iff_not] at hk
  simp; omega

/-- back-quoted literals are written with every backtick escaped and nothing else changed -/
theorem backtick_printer (tok : Token) (v : Bytes) (cw : CW) :
    writeExpr (.raw tok v) cw = (((cw.head tok).writeRune 96).writeString (escBackticks v)).writeRune 96 := by
  simp [writeExpr]
theorem escBackticks_no_raw_backtick (v : Bytes) :
    ∀ pre c post, escBackticks v = pre ++ c :: post → c = 96 → pre.getLast? = some 92 := by
  induction v with
  | nil => intro pre c post h; simp [escBackticks] at h
  | cons a r ih =>
    intro pre c post h hc
    subst hc
    by_cases ha : a = 96
    · subst ha
      simp only [escBackticks, List.flatMap_cons, beq_self_eq_true, if_true] at h ih
      cases pre with
      | nil => simp at h
      | cons p0 pre' =>
        simp only [List.cons_append, List.cons.injEq] at h
        obtain ⟨rfl, h⟩ := h
        cases pre' with
        | nil => simp
        | cons p1 pre'' =>
          simp only [List.cons_append, List.cons.injEq] at h
          obtain ⟨rfl, h⟩ := h
          have := ih pre'' 96 post h rfl
          cases pre'' with
          | nil => simp at this
          | cons q qs => simpa [List.getLast?_cons_cons] using this
    · have hb : (a == 96) = false := by simpa using ha
      simp only [escBackticks, List.flatMap_cons, hb] at h ih
      cases pre with
      | nil => simp at h; exact absurd h.1 ha
      | cons p0 pre' =>
        simp only [Bool.false_eq_true, if_false, List.cons_append, List.cons.injEq] at h
        obtain ⟨rfl, h⟩ := h
        have := ih pre' 96 post h rfl
        cases pre' with
        | nil => simp at this
        | cons q qs => simpa [List.getLast?_cons_cons] using this

/-- numbers, identifiers, booleans: the printer writes the token literal verbatim -/
theorem number_printer (tok : Token) (cw : CW) :
    writeExpr (.int tok) cw = (cw.head tok).writeString tok.lit ∧
    writeExpr (.float tok) cw = (cw.head tok).writeString tok.lit := by
  simp [writeExpr]

/-! Non-vacuity -/
example : encodeUTF8 0xE9 = [0xC3, 0xA9] ∧ encodeUTF8 0x1F600 = [0xF0, 0x9F, 0x98, 0x80] := by decide
example : keepEscaped 0x22 = true ∧ keepEscaped 0xE9 = false ∧ keepEscaped 0x35 = true := by decide
example : escBackticks [97, 96, 98] = [97, 92, 96, 98] := by decide

end Xjs.C07

#print axioms Xjs.C07.encodeUTF8_is_utf8
#print axioms Xjs.C07.decoded_escape_is_harmless
#print axioms Xjs.C07.surrogates_stay_escaped
#print axioms Xjs.C07.decoded_is_scalar
#print axioms Xjs.C07.backtick_printer
#print axioms Xjs.C07.escBackticks_no_raw_backtick
#print axioms Xjs.C07.number_printer
