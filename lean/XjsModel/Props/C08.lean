import XjsModel.Proofs.PrinterPosTree
import XjsModel.Proofs.SourceMap
/-
  C08 — Source map segments link identical lexemes.

  Quantifier: ALL trees (parsed or programmatic) whose written strings contain no CR byte; compact output.

  Proved here (writer invariant `PosInv`, preserved by every printer — structural recursion over the tree):
    (a) every recorded mapping carries as generated position the line/column — in the sense of the counting
        specification `Spec.positionAfter`: line = number of line breaks, column = bytes after the last one — of a
        prefix of the emitted code, namely the code emitted before the token the mapping belongs to (each printer
        records the mapping immediately before it writes the token);
    (d) the recorded mappings are ordered by generated position, and none points beyond the end of the code;
    (c, by construction) an identifier is written only by `writeIdent`, which records a NAMED mapping carrying the
        identifier immediately before writing it (`identifier_is_named`).
  That the `mappings` string decodes to exactly the recorded mappings is C09. That the SOURCE position of a mapping is
  the start of the same lexeme is C10 (token starts) plus the parser storing tokens unchanged (correspondence).
  NOT true of the code and therefore not provable: pretty-printed output (known finding D12: pending whitespace,
  indentation, comments and the final trim bypass the mapper) — decided there by the model-free oracle, which
  reports the class `pretty-map`.
-/
namespace Xjs.C08
open Xjs Xjs.Spec

def compactMapped : CompCfg := { pretty := false, sourceMap := true }

theorem posInv_init : PosInv { pretty := false, indentString := [], semis := false, mapper := some Mapper.new } :=
  ⟨rfl, rfl, by intro c hc; simp at hc,
   by intro m hm; simp only [Option.some.injEq] at hm; subst hm; simp [Mapper.new, advanceBytes],
   by intro m hm mp hmp; simp only [Option.some.injEq] at hm; subst hm; simp [Mapper.new] at hmp,
   by intro m hm; simp only [Option.some.injEq] at hm; subst hm; exact ⟨by simp [Mapper.new], by simp [Mapper.new]⟩⟩

/-- (a) generated positions are positions of prefixes of the code, by the counting specification -/
theorem generated_positions_are_code_positions (prog : StmtList) (hcr : prog.nocr = true) :
    ∀ mp ∈ (compile compactMapped prog).mappings,
      ∃ pre, pre <+: (compile compactMapped prog).code ∧ (mp.genLine, mp.genCol) = positionAfter pre (0, 0) := by
  have hi := pos_writeProgramStmts prog true _ hcr posInv_init
  intro mp hmp
  unfold compile compactMapped at hmp ⊢
  simp only [Bool.false_eq_true, if_false, if_true] at hmp ⊢
  cases hm : (writeProgramStmts prog true { pretty := false, indentString := [], semis := false, mapper := some Mapper.new }).mapper with
  | none => simp [hm] at hmp
  | some m =>
    simp only [hm, Option.map_some, Option.getD_some] at hmp
    obtain ⟨pre, hp, he⟩ := hi.maps m hm mp hmp
    exact ⟨pre, hp, by rw [he, advanceBytes_spec]⟩

/-- (d) the segments are ordered by generated position -/
theorem mappings_ordered_by_generated_position (prog : StmtList) (hcr : prog.nocr = true) :
    (compile compactMapped prog).mappings.Pairwise (fun a b => le2 a.gpos b.gpos) := by
  have hi := pos_writeProgramStmts prog true _ hcr posInv_init
  unfold compile compactMapped
  simp only [Bool.false_eq_true, if_false, if_true]
  cases hm : (writeProgramStmts prog true { pretty := false, indentString := [], semis := false, mapper := some Mapper.new }).mapper with
  | none => simp
  | some m => simpa using (hi.sorted m hm).1

/-- (c) the only printer that writes an identifier records a named mapping carrying it, then writes it -/
theorem identifier_is_named (id : Ident) (cw : CW) :
    writeIdent id cw = ((cw.leadingComments id.tok.comments).addNamedMapping id.tok.sl id.tok.sc id.value).writeString id.value := rfl

/-- the name index recorded for an identifier resolves to that identifier (first-seen interning) -/
theorem named_mapping_resolves (m : Mapper) (sl sc : Int) (name : Bytes) :
    ∃ i, ((m.addNamedMapping sl sc name).mappings.getLast?.bind (·.name)) = some i ∧
         (m.addNamedMapping sl sc name).names[i]? = some name := by
  unfold Mapper.addNamedMapping
  cases h : nameIndexOf m.names name with
  | some i =>
    refine ⟨i, by simp, ?_⟩
    simp only
    exact (nameIndexOf_some m.names name i h).2
  | none =>
    refine ⟨m.names.length, by simp, ?_⟩
    simp

/-! Non-vacuity: `a=1;` — three mappings at columns 0, 1, 2 -/
private def demo : StmtList :=
  .cons (.exprS (.assign { type := .assign, lit := [61], sl := 0, sc := 2, el := 0, ec := 2 }
    (.ident { tok := { type := .ident, lit := [97], sl := 0, sc := 0, el := 0, ec := 1 }, value := [97] })
    (.int { type := .int, lit := [49], sl := 0, sc := 4, el := 0, ec := 5 }))) .nil
example : demo.nocr = true := by decide
example : (compile compactMapped demo).code = [97, 61, 49, 59] ∧
    (compile compactMapped demo).mappings.map (fun m => (m.genLine, m.genCol, m.srcCol)) = [(0, 0, 0), (0, 1, 2), (0, 2, 4)] := by decide

end Xjs.C08

#print axioms Xjs.C08.generated_positions_are_code_positions
#print axioms Xjs.C08.mappings_ordered_by_generated_position
#print axioms Xjs.C08.identifier_is_named
#print axioms Xjs.C08.named_mapping_resolves
