import XjsModel.Proofs.SourceMap
/-
  C09 — Mapping encoding conforms to Source Map v3.

  Quantifier: all finite operation sequences over the public builder API
  (`AddMapping`, `AddNamedMapping`, `AdvanceColumn`, `AdvanceString`, `AdvanceLine`) with arbitrary
  (also negative / decreasing / large) positions and names; every integer for the VLQ codec.
  Model: `XjsModel/Model/SourceMap.lean`. Specification: `XjsModel/Spec/SourceMapV3.lean`.
-/
namespace Xjs.C09
open Xjs Xjs.Spec

/-- (e) VLQ codec: the spec decoder inverts the encoder for EVERY integer, whatever follows -/
theorem vlq_roundtrip (n : Int) (rest : Bytes) : decVlq (encodeVLQ n ++ rest) = some (n, rest) :=
  decVlq_encodeVLQ n rest

/-- (e) only Base64 digits are emitted, and never an empty string -/
theorem vlq_alphabet (n : Int) : encodeVLQ n ≠ [] ∧ ∀ c ∈ encodeVLQ n, (b64val c).isSome := by
  refine ⟨encodeVLQ_ne_nil n, ?_⟩
  intro c hc
  obtain ⟨d, hd, rfl⟩ := encodeVLQ_alphabet n c hc
  rw [b64val_base64Char d hd]; rfl

/-- (a) the `mappings` string of ANY operation history decodes, by the Source Map v3 rules, to exactly
    the recorded absolute mappings (source index 0) -/
theorem mappings_decode (ops : List MapOp) :
    decodeMappings (Mapper.run ops).sourceMap.mappings
      = some ((Mapper.run ops).mappings.map Mapping.toSeg) := by
  unfold decodeMappings Mapper.sourceMap encodeMappings
  exact decode_encodeFrom _ {} {} ⟨rfl, rfl, rfl, rfl, rfl, rfl⟩ (mapperInv_run ops).1

/-- (b) version 3 -/
theorem version (ops : List MapOp) : (Mapper.run ops).sourceMap.version = 3 := rfl

/-- (c) position tracking: advancing over a string moves the generated position as the counting
    specification says (LF, CR LF and CR each one line break) -/
theorem position_advanceString (m : Mapper) (s : Bytes) :
    ((m.advanceString s).genLine, (m.advanceString s).genCol) = positionAfter s (m.genLine, m.genCol) := by
  simp only [Mapper.advanceString]
  exact advanceBytes_spec s _

/-- (c) a recorded mapping carries the generated position current at that moment -/
theorem mapping_records_position (m : Mapper) (sl sc : Int) :
    (m.addMapping sl sc).mappings = m.mappings ++ [{ genLine := m.genLine, genCol := m.genCol, srcLine := sl, srcCol := sc }] :=
  rfl

/-- (d) names are deduplicated: the names array never contains a name twice -/
theorem names_nodup (ops : List MapOp) : (Mapper.run ops).names.Nodup := by
  unfold Mapper.run
  suffices h : ∀ (m : Mapper), m.names.Nodup → (ops.foldl Mapper.step m).names.Nodup from h _ (by simp [Mapper.new])
  induction ops with
  | nil => intro m h; exact h
  | cons op ops ih =>
    intro m h
    apply ih
    cases op with
    | named sl sc n =>
      simp only [Mapper.step, Mapper.addNamedMapping]
      cases hn : nameIndexOf m.names n with
      | some i => exact h
      | none =>
        simp only
        rw [List.nodup_append]
        exact ⟨h, by simp, by intro a ha b hb; simp at hb; subst hb; intro hab; subst hab; exact nameIndexOf_none _ _ hn ha⟩
    | map sl sc => exact h
    | advCol k => exact h
    | advStr s => exact h
    | advLine => exact h

/-- (d) a named mapping gets an index at which its name is stored, and that index is the FIRST
    occurrence of the name -/
theorem named_index (m : Mapper) (sl sc : Int) (name : Bytes) :
    ∃ i, ((m.addNamedMapping sl sc name).mappings.getLast?.bind (·.name)) = some i ∧
         (m.addNamedMapping sl sc name).names[i]? = some name ∧
         ∀ j, j < i → (m.addNamedMapping sl sc name).names[j]? ≠ some name := by
  unfold Mapper.addNamedMapping
  cases hn : nameIndexOf m.names name with
  | some i =>
    refine ⟨i, by simp, (nameIndexOf_some _ _ _ hn).2, nameIndexOf_first _ _ _ hn⟩
  | none =>
    refine ⟨m.names.length, by simp, by simp, ?_⟩
    intro j hj hjn
    simp only at hjn
    rw [List.getElem?_append_left hj] at hjn
    exact nameIndexOf_none _ _ hn (List.mem_of_getElem? hjn)

/-- (d) indices are stable: later operations only append to `names` -/
theorem names_stable (ops more : List MapOp) :
    (Mapper.run ops).names <+: (Mapper.run (ops ++ more)).names := by
  unfold Mapper.run
  rw [List.foldl_append]
  generalize ops.foldl Mapper.step Mapper.new = m
  induction more generalizing m with
  | nil => exact List.prefix_refl _
  | cons op more ih =>
    refine List.IsPrefix.trans ?_ (ih (m.step op))
    cases op with
    | named sl sc n =>
      simp only [Mapper.step, Mapper.addNamedMapping]
      cases nameIndexOf m.names n with
      | some i => exact List.prefix_refl _
      | none => exact List.prefix_append _ _
    | map sl sc => exact List.prefix_refl _
    | advCol k => exact List.prefix_refl _
    | advStr s => exact List.prefix_refl _
    | advLine => exact List.prefix_refl _

/-! Non-vacuity: concrete histories (decreasing source positions, negative columns, CR/LF mixes, repeated names) -/

example : decodeMappings (Mapper.run [.map 3 7, .advCol 4, .named 1 2 [97], .advStr [97, 13, 10, 98], .advLine,
      .map 0 0, .advCol (-2), .named 9 9 [97], .named 5 5 [98]]).sourceMap.mappings
    = some [{ genLine := 0, genCol := 0, source := some (0, 3, 7) },
            { genLine := 0, genCol := 4, source := some (0, 1, 2), name := some 0 },
            { genLine := 2, genCol := 0, source := some (0, 0, 0) },
            { genLine := 2, genCol := -2, source := some (0, 9, 9), name := some 0 },
            { genLine := 2, genCol := -2, source := some (0, 5, 5), name := some 1 }] :=
  mappings_decode _

example : positionAfter [97, 13, 10, 98, 13, 99, 10, 10, 100] (0, 5) = (4, 1) := by decide

end Xjs.C09

#print axioms Xjs.C09.vlq_roundtrip
#print axioms Xjs.C09.vlq_alphabet
#print axioms Xjs.C09.mappings_decode
#print axioms Xjs.C09.version
#print axioms Xjs.C09.position_advanceString
#print axioms Xjs.C09.mapping_records_position
#print axioms Xjs.C09.names_nodup
#print axioms Xjs.C09.named_index
#print axioms Xjs.C09.names_stable
