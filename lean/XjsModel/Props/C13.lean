import XjsModel.Proofs.ParserTolPass
import XjsModel.Proofs.ParserSmartPass
/-
  C13 — Parser modes differ only where documented.

  Quantifier: ALL token lists, all operator tables and interceptor lists.

  Proved here (two passes over the parser's mutual fixed point):
    (a) on every program that strict mode accepts (no error), tolerant mode returns the identical tree, no
        errors and the same final state (`tol_mutual`: every strict-mode run either recorded an error or is,
        step for step, the tolerant-mode run);
    (c) smart-semicolon mode yields the same tree AND the same errors as the default mode on every token
        list in which no `(` or `[` is the first token of a line (`smart_mutual`: the cut never fires).
  Decided by the correspondence run and the model-free mode-diff oracle only: (b) what tolerant mode
  additionally accepts (fused statements, blocks left open at the end) keeps every complete statement;
  (d) the exact effect of the smart cut on line-initial `(` / `[`.
-/
namespace Xjs.C13
open Xjs

theorem strict_eq (cfg : PCfg) (h : cfg.tolerant = false) : cfg.strict = cfg := by
  cases cfg; simp_all [PCfg.strict]

theorem tol_programLoop (cfg : PCfg) (acc : StmtList) (st : PS) (r : StmtList × PS)
    (h : programLoop cfg.strict acc st = some r) : TolM (programLoop cfg.tol acc) st r := by
  refine programLoop.partial_correctness cfg.strict (fun acc st r => TolM (programLoop cfg.tol acc) st r) ?_ acc st r h
  intro f ih acc st r h
  unfold TolM at ih ⊢
  split at h
  · rename_i hc
    obtain ⟨⟨s, st1⟩, h1, h2⟩ := bind_some h
    obtain ⟨l1, r1⟩ := (tol_mutual cfg).1 _ _ _ h1
    obtain ⟨l2, r2⟩ := ih _ _ _ h2
    dsimp only at l1 r1
    simp only [elen_next] at l2 r2
    refine ⟨by omega, ?_⟩
    rcases r1 with r1 | r1
    · rcases r2 with r2 | r2
      · left
        rw [programLoop]
        simp only [hc, if_true, tol_stmtI, strict_stmtI] at r1 ⊢
        rw [r1]
        exact r2
      · right; omega
    · right; omega
  · rename_i hc
    cases h
    refine ⟨Nat.le_refl _, Or.inl ?_⟩
    rw [programLoop]; simp only [hc]; rfl

/-- (a) On every program that strict mode accepts, tolerant mode returns the identical result. -/
theorem tolerant_agrees_where_strict_accepts (cfg : PCfg) (hs : cfg.tolerant = false) (toks : List Token)
    (r : ParseResult) (h : parseProgram cfg toks = some r) (hok : r.errors = []) :
    parseProgram { cfg with tolerant := true } toks = some r := by
  rw [← strict_eq cfg hs] at h
  show parseProgram cfg.tol toks = some r
  unfold parseProgram at h ⊢
  obtain ⟨⟨stmts, st⟩, h1, h2⟩ := bind_some h
  cases h2
  obtain ⟨l, rr⟩ := tol_programLoop cfg _ _ _ h1
  rcases rr with rr | rr
  · rw [rr]; rfl
  · simp only [PS.elen, PS.init, List.length_nil] at rr
    simp only at hok
    rw [hok] at rr
    simp at rr

theorem smartOff_eq (cfg : PCfg) (h : cfg.smart = false) : cfg.smartOff = cfg := by
  cases cfg; simp_all [PCfg.smartOff]

theorem smart_programLoop (cfg : PCfg) (acc : StmtList) (st : PS) (r : StmtList × PS)
    (h : programLoop cfg.smartOff acc st = some r) : SmartM (programLoop cfg.smartOn acc) st r := by
  refine programLoop.partial_correctness cfg.smartOff (fun acc st r => SmartM (programLoop cfg.smartOn acc) st r) ?_ acc st r h
  intro f ih acc st r h
  unfold SmartM at ih ⊢
  intro h0
  split at h
  · rename_i hc
    obtain ⟨⟨s, st1⟩, h1, h2⟩ := bind_some h
    obtain ⟨e1, n1⟩ := (smart_mutual cfg).1 _ _ _ h1 h0
    obtain ⟨e2, n2⟩ := ih _ _ _ h2 (noLI_next n1)
    refine ⟨?_, n2⟩
    rw [programLoop]
    simp only [hc, if_true, smartOn_stmtI, smartOff_stmtI] at e1 ⊢
    rw [e1]
    exact e2
  · rename_i hc
    cases h
    refine ⟨?_, h0⟩
    rw [programLoop]; simp only [hc]; rfl

/-- (c) Smart-semicolon mode gives the same tree and the same errors as the default mode on every token list
    in which no `(` or `[` starts a line. -/
theorem smart_agrees_without_line_initial_open (cfg : PCfg) (hs : cfg.smart = false) (toks : List Token)
    (hli : ∀ t ∈ toks, t.lineInitialOpen = false)
    (r : ParseResult) (h : parseProgram cfg toks = some r) :
    parseProgram { cfg with smart := true } toks = some r := by
  rw [← smartOff_eq cfg hs] at h
  show parseProgram cfg.smartOn toks = some r
  unfold parseProgram at h ⊢
  obtain ⟨⟨stmts, st⟩, h1, h2⟩ := bind_some h
  cases h2
  obtain ⟨e, _⟩ := smart_programLoop cfg _ _ _ h1 hli
  rw [e]; rfl

/-- the tokens the lexer delivers for a text: line-initial `(`/`[` in the token list is exactly what the
    after-newline flag says, so the premise of (c) is a statement about the source layout -/
theorem premise_is_about_layout (t : Token) :
    t.lineInitialOpen = true ↔ (t.nl = true ∧ (t.type = .lparen ∨ t.type = .lbracket)) := by
  unfold Token.lineInitialOpen
  simp

/-! Non-vacuity -/
example : ∃ r, parseProgram {} [dummyTok] = some r ∧ r.errors = [] ∧ (∀ t ∈ [dummyTok], t.lineInitialOpen = false) := by
  refine ⟨{ prog := .nil, errors := [], hasErr := false, final := PS.init [dummyTok] }, ?_, rfl, by simp [Token.lineInitialOpen, dummyTok]⟩
  rw [parseProgram, programLoop]
  simp [PS.init, PS.cur, dummyTok]

end Xjs.C13

#print axioms Xjs.C13.tolerant_agrees_where_strict_accepts
#print axioms Xjs.C13.smart_agrees_without_line_initial_open
#print axioms Xjs.C13.premise_is_about_layout
