import XjsModel.Proofs.ParserTolPass
import XjsModel.Proofs.ParserSmartPass
import XjsModel.Proofs.RaTerm
/-
  C13 — Parser modes differ only where documented.

  Quantifier: ALL token lists, all operator tables and interceptor lists.

  Proved here (two passes over the parser's mutual fixed point):
    (a) on every program that strict mode accepts (no error), tolerant mode returns the identical tree, no
        errors and the same final state (`tol_mutual`: every strict-mode run either recorded an error or is,
        step for step, the tolerant-mode run);
    (c) smart-semicolon mode yields the same tree AND the same errors as the default mode on every token
        list in which no `(` or `[` is the first token of a line (`smart_mutual`: the cut never fires).
    (b) tolerant mode accepts, without error and returning the full tree, every program in which statement
        terminators are missing in front of a token that cannot continue the expression — on the same line or not
        (`tolerant_accepts_missing_separators`; from the statement-level round trip);
    (d) in smart-semicolon mode a `(` or `[` at the start of a line begins a new statement exactly as if a semicolon
        preceded it: the program without that terminator is parsed to the same tree as with it
        (`smart_line_initial_open_starts_a_statement`).
  Decided by the correspondence run and the model-free mode-diff oracle only: blocks left open at the end of the
  input (tolerant mode); that the default mode joins such a line-initial `(` / `[` to the previous expression.
-/
namespace Xjs.C13
open Xjs

theorem strict_eq (cfg : PCfg) (h : cfg.tolerant = false) : cfg.strict = cfg := by
  cases cfg; simp_all [PCfg.strict]

theorem tol_programLoop (cfg : PCfg) (acc : StmtList) (st : PS) (r : StmtList × PS)
    (h : programLoop cfg.strict acc st = some r) : TolM (programLoop cfg.tol acc) st r := by
  refine programLoop.partial_correctness cfg.strict (fun acc st r => TolM (programLoop cfg.tol acc) st r) ?_ acc st r h
  intro f ih acc st r h
  unfold TolM at ih ⊢
  split at h
  · rename_i hc
    obtain ⟨⟨s, st1⟩, h1, h2⟩ := bind_some h
    obtain ⟨l1, r1⟩ := (tol_mutual cfg).1 _ _ _ h1
    obtain ⟨l2, r2⟩ := ih _ _ _ h2
    dsimp only at l1 r1
    simp only [elen_next] at l2 r2
    refine ⟨by omega, ?_⟩
    rcases r1 with r1 | r1
    · rcases r2 with r2 | r2
      · left
        rw [programLoop]
        simp only [hc, if_true, tol_stmtI, strict_stmtI] at r1 ⊢
        rw [r1]
        exact r2
      · right; omega
    · right; omega
  · rename_i hc
    cases h
    refine ⟨Nat.le_refl _, Or.inl ?_⟩
    rw [programLoop]; simp only [hc]; rfl

/-- (a) On every program that strict mode accepts, tolerant mode returns the identical result. -/
theorem tolerant_agrees_where_strict_accepts (cfg : PCfg) (hs : cfg.tolerant = false) (toks : List Token)
    (r : ParseResult) (h : parseProgram cfg toks = some r) (hok : r.errors = []) :
    parseProgram { cfg with tolerant := true } toks = some r := by
  rw [← strict_eq cfg hs] at h
  show parseProgram cfg.tol toks = some r
  unfold parseProgram at h ⊢
  obtain ⟨⟨stmts, st⟩, h1, h2⟩ := bind_some h
  cases h2
  obtain ⟨l, rr⟩ := tol_programLoop cfg _ _ _ h1
  rcases rr with rr | rr
  · rw [rr]; rfl
  · simp only [PS.elen, PS.init, List.length_nil] at rr
    simp only at hok
    rw [hok] at rr
    simp at rr

theorem smartOff_eq (cfg : PCfg) (h : cfg.smart = false) : cfg.smartOff = cfg := by
  cases cfg; simp_all [PCfg.smartOff]

theorem smart_programLoop (cfg : PCfg) (acc : StmtList) (st : PS) (r : StmtList × PS)
    (h : programLoop cfg.smartOff acc st = some r) : SmartM (programLoop cfg.smartOn acc) st r := by
  refine programLoop.partial_correctness cfg.smartOff (fun acc st r => SmartM (programLoop cfg.smartOn acc) st r) ?_ acc st r h
  intro f ih acc st r h
  unfold SmartM at ih ⊢
  intro h0
  split at h
  · rename_i hc
    obtain ⟨⟨s, st1⟩, h1, h2⟩ := bind_some h
    obtain ⟨e1, n1⟩ := (smart_mutual cfg).1 _ _ _ h1 h0
    obtain ⟨e2, n2⟩ := ih _ _ _ h2 (noLI_next n1)
    refine ⟨?_, n2⟩
    rw [programLoop]
    simp only [hc, if_true, smartOn_stmtI, smartOff_stmtI] at e1 ⊢
    rw [e1]
    exact e2
  · rename_i hc
    cases h
    refine ⟨?_, h0⟩
    rw [programLoop]; simp only [hc]; rfl

/-- (c) Smart-semicolon mode gives the same tree and the same errors as the default mode on every token list
    in which no `(` or `[` starts a line. -/
theorem smart_agrees_without_line_initial_open (cfg : PCfg) (hs : cfg.smart = false) (toks : List Token)
    (hli : ∀ t ∈ toks, t.lineInitialOpen = false)
    (r : ParseResult) (h : parseProgram cfg toks = some r) :
    parseProgram { cfg with smart := true } toks = some r := by
  rw [← smartOff_eq cfg hs] at h
  show parseProgram cfg.smartOn toks = some r
  unfold parseProgram at h ⊢
  obtain ⟨⟨stmts, st⟩, h1, h2⟩ := bind_some h
  cases h2
  obtain ⟨e, _⟩ := smart_programLoop cfg _ _ _ h1 hli
  rw [e]; rfl

/-- the tokens the lexer delivers for a text: line-initial `(`/`[` in the token list is exactly what the
    after-newline flag says, so the premise of (c) is a statement about the source layout -/
theorem premise_is_about_layout (t : Token) :
    t.lineInitialOpen = true ↔ (t.nl = true ∧ (t.type = .lparen ∨ t.type = .lbracket)) := by
  unfold Token.lineInitialOpen
  simp

/-! Non-vacuity -/
example : ∃ r, parseProgram {} [dummyTok] = some r ∧ r.errors = [] ∧ (∀ t ∈ [dummyTok], t.lineInitialOpen = false) := by
  refine ⟨{ prog := .nil, errors := [], hasErr := false, final := PS.init [dummyTok] }, ?_, rfl, by simp [Token.lineInitialOpen, dummyTok]⟩
  rw [parseProgram, programLoop]
  simp [PS.init, PS.cur, dummyTok]

open Xjs.RA in
/-- (b) TOLERANT MODE: every statement terminator may be missing as long as the next token cannot continue the
    expression (e.g. `a = 1 b = 2` on one line): the program is accepted without error and every statement is kept -/
theorem tolerant_accepts_missing_separators (cfg : PCfg) (hc : BaseCfg cfg) (htol : cfg.tolerant = true)
    (prog : SSList) (hw : prog.wf = true) (eofTok : Token) (he : eofTok.type = .eof) (hlay : prog.lay true false eofTok = true) :
    ∃ r, parseProgram cfg (prog.toks ++ [eofTok]) = some r ∧ r.prog = prog.tree ∧ r.errors = [] ∧ r.hasErr = false :=
  program_round_trip (tol := true) (sm := false) hc (fun _ => htol) (fun h => by cases h) prog hw eofTok he hlay

open Xjs.RA in
/-- (d) SMART SEMICOLONS: a statement that is not closed by `;` and is followed by a line starting with `(` or `[` (or by
    anything else admissible) ends there: the program is parsed to the tree it has with the terminator written -/
theorem smart_line_initial_open_starts_a_statement (cfg : PCfg) (hc : BaseCfg cfg) (hsm : cfg.smart = true)
    (prog : SSList) (hw : prog.wf = true) (eofTok : Token) (he : eofTok.type = .eof) (hlay : prog.lay false true eofTok = true) :
    ∃ r, parseProgram cfg (prog.toks ++ [eofTok]) = some r ∧ r.prog = prog.tree ∧ r.errors = [] ∧ r.hasErr = false :=
  program_round_trip (tol := false) (sm := true) hc (fun h => by cases h) (fun _ => hsm) prog hw eofTok he hlay

/-! Non-vacuity: `a = 1 b = 2` (one line) is admissible in tolerant mode only; `a⏎(b)` in smart mode only -/
private def tk (ty : TokType) (lit : Bytes) (nl : Bool := false) : Token :=
  { type := ty, lit := lit, sl := 0, sc := 0, el := 0, ec := 0, nl := nl }
private def fused : RA.SSList :=
  .cons (.exprS (.asg (tk .assign [61]) (.atom (tk .ident [97])) (.atom (tk .int [49]))) false)
    (.cons (.exprS (.asg (tk .assign [61]) (.atom (tk .ident [98])) (.atom (tk .int [50]))) true) .nil)
example : fused.wf = true ∧ fused.lay true false (tk .eof []) = true ∧ fused.lay false false (tk .eof []) = false := by decide
/-- `a⏎(function () {})();` : an immediately-invoked function expression on the line after a statement without `;` -/
private def iife : RA.SSList :=
  .cons (.exprS (.atom (tk .ident [97])) false)
    (.cons (.exprS (.call (tk .lparen [40]) (.grp (tk .lparen [40] true) (.func (tk .function [102]) none [] .nil) (tk .rparen [41])) .nil) true) .nil)
example : iife.wf = true ∧ iife.lay false true (tk .eof []) = true ∧ iife.lay false false (tk .eof []) = false := by decide

end Xjs.C13

#print axioms Xjs.C13.tolerant_agrees_where_strict_accepts
#print axioms Xjs.C13.smart_agrees_without_line_initial_open
#print axioms Xjs.C13.premise_is_about_layout
#print axioms Xjs.C13.tolerant_accepts_missing_separators
#print axioms Xjs.C13.smart_line_initial_open_starts_a_statement
